#!/usr/bin/env python3
"""Regenerates MANIFEST.json from the table below (kept in one place so that claims, notes and
not_applicable stay consistent).  Run: python3 tools/gen_manifest.py"""
import json
import os

HERE = os.path.dirname(os.path.dirname(os.path.abspath(__file__)))

# property -> (technique, level text, level note, design ref)
CLAIMS = {
    "C15": ("CFG dataflow of upper-bound facts (v < num_chains) + branch-edge dominance rules over SampleDREAM<form>",
            "Static rule discharge: on every CFG path of both SampleDREAM instantiations each chain index reaching a TasmanianDREAM accessor or a "
            "num_chains-sized local vector is proven < num_chains; the pdf is evaluated only on proposals that passed inside(); history append, "
            "accept/reject copies and the form-specific acceptance test have the documented shape. Holds for all inputs and random streams because "
            "it is a property of every path, not of sampled runs.",
            "Decides necessary structural clauses only; the acceptance law as a probability statement and run-splitting equality need the random "
            "stream and are not decided. Assumes get_random01() in [0,1]. Trusted: clang 14 AST/CFG, the extractor, the rule driver.",
            "DESIGN.md 4/C15"),
}

CLAIMS["C08"] = (
    "inter-procedural parameter-flow (limits positions inferred from the member llimits and the API arguments) + branch-edge dominance (-1 sentinel) + post-dominance (lock-step iterator) + loop-exit lint",
    "Static rule discharge over all 5 grid classes, the index manipulators and the API layer, every template instantiation: the persistent limits member reaches every selection "
    "primitive on every call path (no site substitutes the argument, an empty vector or drops the parameter), limited/unlimited template variants are selected exactly by emptiness, "
    "every read of a limit element is dominated by a test excluding the -1 sentinel on the same element, iterators walking the limits advance once per dimension on every path, and "
    "the grow-until-min_growth loops have an exit that consults the limits. These are per-path facts, hence hold for all limit vectors, grids and histories.",
    "The safety clause (no point beyond a limit) is decided structurally under the assumption that the limit primitives themselves compare the right level quantity (index vs level "
    "mapping per rule is not checked). Termination in general is not decided, only the presence of a limits-consulting exit in the min_growth loops.",
    "DESIGN.md 4/C08")

CLAIMS["C07"] = (
    "CFG path rules (must-pass-after / must-pass-before / branch-edge dominance) on every StorageSet::addValues and points-merge site, classification of every write to `needed`, "
    "transitive member write sets (R-EFFECT), closed-form extent comparison (R-EXTENT), sibling agreement of buildUpdateMap, sibling agreement of membership guards of candidate appends, "
    "subscript bounds of output-dependent strips",
    "Static rule discharge over all five grid classes and every template instantiation: values are merged before the index set they are ordered by and the index merge follows on every path; "
    "an overwriting reload replaces the values exactly when nothing is needed; every assignment to the needed set is empty, a difference with the loaded set, or made where no points are loaded; "
    "candidate collectors append only indices tested missing from the loaded set; clearRefinement writes exactly needed/updated_*, refinement entry points never write points, values or "
    "coefficients; the validated size of scale_correction equals the extent the refinement indexes; tolerance zero returns the refine-everything map in both local families.",
    "Necessary structural conditions only: which points a given tolerance selects (normalised, scaled coefficient comparison) is numerical and not decided. The merge routines of "
    "MultiIndexSet/StorageSet themselves (three-way merge, binary search) are trusted here. Rules D1.overwrite and D6 were written after seeds C07-a/b were known (see DESIGN.md).",
    "DESIGN.md 4/C07")

CLAIMS["C06"] = (
    "writer/reader token-sequence agreement (AST linearisation of every serialisation routine into nested (element type, data member) sequences per i/o mode, template constants folded), "
    "member coverage, enum codec totality/injectivity, section-tag agreement, unconditional rebuild of derived state, direction agreement of serialised forward lists",
    "Static rule discharge over 11 writer/reader pairs x 2 modes: both sides transfer the same members, in the same order, with the same element types, under the same section guards "
    "(flag written from the condition that guards the section); every data member of the grid classes is serialised or rebuilt by the reader from restored data; rule codecs cover every "
    "enumerator once; top-level tags written are tags the reader accepts and the same members sit under them; state that is not stored (per-tensor point sets, wrappers, sequences) is rebuilt "
    "on every reader path. A drift between a writer and its reader is a property of the code shape and is decided for every grid state at once.",
    "Byte equality of a re-written file and the 17-digit decimal round trip of doubles are runtime facts; they follow from the decided clauses only if the stream primitives "
    "(writeVector/readVector etc.) are mutual inverses, which is trusted. Counts used by readers (e.g. active_w sized by active_tensors) are compared only where both sides are explicit. "
    "Rules D5 and the member identity in D1 were added after seeds C06-a/b were known.",
    "DESIGN.md 4/C06")

CLAIMS["C19"] = (
    "typestate dataflow of state.x over the CFG (displaced/accepted, join = displaced), dominance/post-dominance of cap test and iteration count around each objective evaluation, "
    "intra-iteration reachability from the stepsize reduction",
    "Static rule discharge over both GradientDescent variants: at every return the state holds the last accepted iterate (the swap that displaced it is undone or superseded by the accepting "
    "swap on every path); the state is only changed by those swaps, the accepting one only on the exit edge of the descent test with the output of proj; every objective evaluation inside "
    "a loop is preceded in the same iteration by the cap test and followed by exactly one count; the descent test never uses the stepsize after it was reduced in that iteration and the "
    "reduction is compensated on loop exit. These hold for all objectives, projections, tolerances and caps because they are facts about every CFG path.",
    "Value-level monotonicity of the objective across caps follows from the restored iterate plus the descent inequality and is numerical, not decided. The arithmetic of lhs/rhs is "
    "not checked beyond which stepsize value it reads.",
    "DESIGN.md 4/C19")

CLAIMS["C17"] = (
    "file-set agreement + dominance of a completed copy to a different path before the truncating open (CFG with implicit destructors) + validation-after-last-read and handler coverage "
    "of each recovery deserialiser + must-pass-through of checkpoint() + restart budget initialiser + lost-update lint on the restore code",
    "Static rule discharge over the four instantiations of constructCommon<parallel,guess>, its lambdas and the deserialisers it calls: the recovery code reads exactly the two files the "
    "checkpoint code writes; the current file is copied to the backup path (different from the source), with the copy streams destroyed, before it is truncated; each deserialiser in "
    "the recovery try ends in a stream or end-marker validation that throws the type the handler catches; every stored sample is followed by a checkpoint on every path; the launched "
    "count after a restart includes recovered samples. These are shape facts and hold for every crash point that leaves a file either complete or truncated.",
    "Not decided: atomicity of writes inside the file system, and exceptions other than std::runtime_error raised by the grid reader on garbage sizes of a torn grid section "
    "(noted in DESIGN.md). A failed read leaves the grid cleared; behaviour when both files are unreadable is out of scope. D5/D6 were written after seeds C17-a/b were known.",
    "DESIGN.md 4/C17")

CLAIMS["C12"] = (
    "R-EFFECT: transitive write sets over the resolved call graph (virtual dispatch to all five grid classes, receiver-rooted propagation of member writes, global/static writes always) "
    "from every const public method of TasmanianSparseGrid, device-only code excluded",
    "Static rule discharge: 80 const public entry points and the ~900 functions they can reach in acceleration mode none perform no write to a mutable member of the grid object, "
    "to a namespace-scope or function-local static variable, or through const_cast; helper classes' const methods are directly pure. Const purity is the structural necessary "
    "condition for data-race freedom of concurrent const calls, and it is decided for all schedules at once because it does not depend on any schedule. One genuine violation "
    "(wavelet interpolation matrix cache) is a listed known finding.",
    "Race freedom inside the C++ standard library and of third-party BLAS is assumed; equality of results under concurrency follows from purity and is not decided separately. "
    "Device paths (suffix GPU, on_gpu()/useKernels() guards, gpu acceleration cases) are excluded because the property is stated for the default acceleration mode.",
    "DESIGN.md 4/C12")

CLAIMS["C13"] = (
    "R-OMP: data-sharing classification of every write in every OpenMP parallel region over the -fopenmp parse (directive tree + captured variables), canonical-order check of critical "
    "appends, commutativity of atomic/critical combinations, cross-configuration agreement of separately written OpenMP and serial bodies, placement of random draws",
    "Static rule discharge over 150+ parallel regions (all template instantiations): every write to non-private data is subscripted through the worksharing loop variable, protected by "
    "critical/atomic, a reduction, or individually justified; containers appended to under critical are sorted/uniqued before use; values combined under atomic/critical are combined "
    "commutatively; the hand-written OpenMP and serial variants of the same loop make the same guarded calls; the particle-swarm random stream is drawn outside parallel regions. "
    "These are the structural conditions under which grids (point sets, orders, decisions) cannot depend on the thread count or schedule.",
    "Numerical equality to rounding is taken from race freedom plus canonical ordering; it is not decided separately (floating-point sums may differ in the last bits, which the property "
    "allows). The justified-indirect-index list has one entry (FFT lines). An exact tie in Optimizer::computeMaximum would be resolved by arrival order: replayed without any observable "
    "difference, recorded as a note. Rule D7 was added after seed C13-a was missed.",
    "DESIGN.md 4/C13")

CLAIMS["C20"] = (
    "who-may-call + branch-edge dominance for the objective, guard-form check of every best-position write, must-pass-after cache coherence of ParticleSwarmState mutators, per-iteration "
    "structure, OpenMP placement of random draws",
    "Static rule discharge over ParticleSwarm(), its two lambdas and the state class: the objective is reachable only through the domain-filtered buffer (appended on the true edge of "
    "inside(candidate) for that candidate); every write of a best-known position, value or flag is dominated by 'particle inside' and by 'no best yet or strictly smaller', the compared "
    "value being the stored one, and the three are written together, for the particle and the swarm slot; every public mutator of the best positions invalidates the cached best values; "
    "the swarm-best branch is re-evaluated each iteration; random numbers are drawn outside parallel regions.",
    "Equality of n+m and n-then-m iterations for a given random stream and value equality of the caches are runtime facts, not decided; D4 (branch re-evaluated inside the loop) is the "
    "structural necessary condition for the former and was added after seed C20-b was known.",
    "DESIGN.md 4/C20")

CLAIMS["C16"] = (
    "R-COVER over the command table and enum, dead-disjunct and family-predicate check of the make dispatch, predicate agreement between tool and library argument checks, "
    "sibling agreement of the output mapping, closed-form offset comparison for the Fourier coefficient layout",
    "Static rule discharge on the tasgrid wrapper: the command table has unique keys and covers every command, every command is dispatched; no alternative of the make dispatch is "
    "dead and each grid family is selected for -makequadrature by its own rule predicate; the tool rejects exactly the argument ranges the library rejects for the forwarded options; "
    "all sites mapping 'all outputs' to output 0 do so for Global grids only; the imaginary block of Fourier coefficients is read at the offset the library writes it. "
    "One genuine violation (duplicate -sc) is a listed known finding.",
    "Equivalence of tool output and API results on command scripts needs execution and is not decided; the option parser in tasgrid_main.cpp is not analysed (it is a chain of "
    "string comparisons feeding setters). D4 and D5 were written after seeds C16-a/b were known.",
    "DESIGN.md 4/C16")

CLAIMS["C18"] = (
    "R-LOCKSET on AST scopes with who-may-call for lambdas that touch guarded data, predicate-overload / notify presence for condition variables, branch-edge dominance of the unsigned "
    "budget difference, pairing of the running counter with the running list, join presence and model-argument check",
    "Static rule discharge over constructCommon<true,*>, the threaded loadNeededValues and CandidateManager: every access to work_flag/count_done/checked_out happens under a live RAII "
    "lock on the associated mutex (directly, through all callers of the accessing lambda, or in a wait predicate), except a worker's own slot written before its thread exists; waits use "
    "predicates and are notified; every unsigned budget difference is guarded; the running-job counter only changes together with the running list; threads are joined and each worker "
    "calls the model with its own slot. These lock-discipline facts hold for every schedule because they are facts about scopes, not about interleavings.",
    "Deadlock freedom, absence of lost wake-ups and exactly-once hand-out over all schedules are properties of interleavings (model checking territory) and are not decided; the "
    "decided clauses are necessary conditions for them.",
    "DESIGN.md 4/C18")

CLAIMS["C14"] = (
    "call-graph closure of throw types, CFG reachability of a throw after a state write with propositional feasibility of the two branch-condition sets (sympy satisfiability over "
    "stable predicate atoms), size-check presence before forwarding vector data, sibling agreement of validation guards, inter-procedural may-throw summaries with call-site "
    "constant binding for late failures inside the grid classes, null-literal argument flow to dereferencing uses",
    "Static rule discharge over the 120+ public methods of TasmanianSparseGrid and the ~900 functions they reach: every throw expression constructs std::runtime_error or "
    "std::invalid_argument and throwing std conversions are converted; in every mutating entry point no feasible path runs from a write of the grid's state (base, transforms, conformal "
    "map, level limits, construction flag) to a throw, make* validates before clear(), the readers change nothing but clear() before their last throw and commit afterwards; vector "
    "arguments are size-checked before their data pointer is forwarded; the make / refinement / construction families reject the same things on their common parameters; inside the grid classes no call that can still throw "
    "(table depth exceeded, eigen-solver failure) runs after the points / values / tensors were changed; a literal null pointer never reaches a dereference.",
    "'Never hangs, no undefined behaviour for any bad call in any state' is dynamic and not decided. For late failures the pending-refinement and construction members are exempt "
    "(a rejected update may drop a pending refinement). Level limits are treated as part of the grid's state. Found and repaired through D7/D8: 2f1140e, a59c34a.",
    "DESIGN.md 4/C14")

CLAIMS["C10"] = (
    "R-SIBLING partition agreement of all dispatchers on the rule + R-SYMBOLIC: the per-family loop bodies are converted to closed forms in (x, a, b, alpha, beta) and algebraic identities "
    "are discharged with sympy (composition, derivative, power law, end-point images)",
    "Static rule discharge: forward map, inverse map, Jacobian, quadrature scale and domain predicate put every one of the 40+ rule enumerators into the same family; for each family "
    "forward(inverse(x)) = inverse(forward(x)) = x, the Jacobian used by differentiate equals d(inverse)/dx, the quadrature scale equals (d forward/dx)^(1+w) with w the homogeneity of "
    "the rule's weight (the effective alpha/beta of the Chebyshev variants included), the hierarchical support factor equals d forward/dx, and the bounds tested by getDomainInside are the "
    "images of the canonical end points. These identities hold for all a<b and all x because they are proved symbolically, not sampled.",
    "The conformal (asin) map, its Newton inverse and round-off at the domain boundary are not decided. The weight-homogeneity table (alpha, alpha+beta, 0) is taken from the rule "
    "documentation in tsgEnumerates.hpp and is part of the trusted base.",
    "DESIGN.md 4/C10")

CLAIMS["C05"] = (
    "R-SYMBOLIC by partial evaluation: the loop-free 1-D basis routines of every instantiated local rule are turned into sympy closed forms (template constants folded, point class concrete, "
    "x symbolic) and the derivative identities are discharged exactly; folding of the per-basis gradient loop nests for 1-4 dimensions against the product rule (cached 1-D values as "
    "tagged symbols); plus argument agreement, row-major layout of gradient accumulation and the chain-rule obligations shared with C10",
    "Static rule discharge: for all 4 local polynomial rules x point classes 0..12 the derivative routines (quadratic, cubic, support map, assembled evalSupport/diffSupport for orders 1-3) "
    "are the derivatives of the value routines; the high-order paths receive the same arguments; every gradient accumulation in the tree walk uses the documented outputs x dimensions "
    "layout with matching indices; the chain rule under linear transforms is applied with the Jacobian of the inverse map to the matching dimension for every rule family.",
    "Orders above 3 (product form with loops), the Lagrange/Newton derivative caches of Global and Sequence grids, the Fourier quotient rule and the wavelet derivative tables are "
    "algorithmic, not closed forms: not decided. Point classes above 12 repeat the parity pattern of the closed forms and are not enumerated.",
    "DESIGN.md 4/C05")
CLAIMS["C11"] = (
    "R-COVER member-by-member coverage of every copy constructor + guard/argument check of output splitting + type rule for owning members + kernel check of the strip splitter and "
    "of restrictData + top-level dispatch and clear-on-every-path",
    "Static rule discharge over the copy constructors of the five grid classes, the base class, the construction-data classes and TasmanianSparseGrid::copyGrid: every non-mutable data "
    "member is initialised from the same member of the source; output-strided containers are copied whole for the full range and through split(ibegin, iend) of the same member "
    "otherwise, pending construction data are restricted with the same range and their stored output count follows; owning pointers are deep-copied and nothing else is shared; the "
    "destination is cleared on every path before members are copied and every family is dispatched to its own constructor with the requested range.",
    "Observational equality with the source and independence afterwards follow from these structurally and are not decided separately. The restrictData kernel rule and the "
    "clear-on-every-path form of D5 were written after seeds C11-a/b were known.",
    "DESIGN.md 4/C11")

CLAIMS["C02"] = (
    "R-SYMBOLIC by partial evaluation of the loop-free exactness tables for every global rule and level 0..12, compared with degree-of-exactness theorems that depend only on the number "
    "of nodes; R-COVER of the rule enumerators; routing of integrate(); R-SYMBOLIC quadrature scale of the domain transform (shared with C10) and basis integrals of the local rules (shared with C04)",
    "Static rule discharge: for 35 global rules the declared quadrature exactness never exceeds what any rule of that class with the declared number of nodes can integrate "
    "(Gauss 2n-1, Gauss-Patterson (3n+1)/2, interpolatory n-1 plus one degree by symmetry only for odd n), tables are monotone, every global rule has an explicit case, and integrate() "
    "is routed through the same weights/basis integrals as getQuadratureWeights. An over-claim in the table lists a monomial in getGlobalPolynomialSpace(false) that cannot be integrated, "
    "for every grid built with that rule: this is the part of C02 that is visible in code shape.",
    "Exactness of the computed nodes, weights, tensor weights and assembled sparse-grid weights for all configurations is numerical and NOT decided (seed C02-b, a 0/0 in the Gauss-Jacobi "
    "recurrence for alpha+beta=-1, is out of reach and documented as missed). The laws are upper bounds; under-claims are reported as notes.",
    "DESIGN.md 4/C02")
CLAIMS["C03"] = (
    "partial evaluation of the interpolation-exactness table for every global rule and level 0..12 against the bound n-1 (frozen exceptions clenshaw-curtis-zero and fourier), R-COVER, routing; R-SIBLING pairing of the Kronecker Vandermonde pattern (shared with C01); "
    "R-SIBLING evaluation of every loaded/needed work-set selection over the four emptiness assignments",
    "Static rule discharge (thin claim): the declared interpolation space never lists a monomial that n nodes cannot reproduce, the tables are monotone and total over the global rules, and "
    "the value and weight routes of Global and Sequence grids share their basis routines.",
    "Exact reproduction at arbitrary x (Lagrange caches, Newton transform, DFT weights, DAG transform, wavelet solve) and 'weights sum to one' are numerical and not decided. This is a "
    "table-and-routing claim only.",
    "DESIGN.md 4/C03")

CLAIMS["C01"] = (
    "R-MUST-PASS (CFG must-pass-after with per-method summaries computed as a fixpoint over calls on the same object) from every change of the stored values / loaded point set to a decision "
    "about the hierarchical coefficients, in every entry point of the five grid classes; R-PAIR-ORDER of value merges (shared with C07); R-GUARD of the Kronecker algorithm; R-SIBLING pairing of columns and basis values in its sparse Vandermonde pattern (partial evaluation of the ancestor walk against getParent); "
    "symbolic offset of the single-point insertion kernel; tree rebuild (shared with C04)",
    "Static rule discharge of the structural half of interpolation: on no path does an entry point of GridLocalPolynomial/Sequence/Wavelet/Fourier/Global leave with new values or a new point set "
    "and the old surpluses / coefficients / tensor bookkeeping (which is how evaluate() at a node stops returning the loaded value without any arithmetic being wrong); values are merged before the "
    "index set they are ordered by; the complete-hierarchy algorithm runs only when computeDAGup reported completeness, and its 1-D matrix pattern puts basis J evaluated at the node of row r into column J "
    "of row r for exactly the ancestors of r; a single inserted point lands at offset slot*stride; the evaluation tree follows the point set.",
    "That the computed surpluses / coefficients are the right numbers (van_matrix arithmetic, wavelet solves, FFT-like transforms, Lagrange caches) is numerical and NOT decided: seeds that "
    "perturb the arithmetic of a solver are out of reach and documented as missed. Found and repaired through this rule: GridFourier::mergeRefinement (9f0a30f), GridWavelet stale matrix (dfb952e).",
    "DESIGN.md 4/C01")
CLAIMS["C04"] = (
    "R-SYMBOLIC by partial evaluation of the local basis routines (support radius vs. zero set of the closed-form basis, tabulated integrals vs. exact integrals); R-SIBLING of the dense and sparse "
    "hierarchical-matrix routes; R-EXTENT of blocked batch loops; R-MUST-PASS of the tree rebuild; setHierarchicalCoefficients value refresh",
    "Static rule discharge: for every local rule and point class the declared support contains the set where the closed-form basis is non-zero (so the sparse matrix cannot omit a non-zero "
    "entry), the sparse and dense matrices come from the same tree walk, batch blocking covers each row exactly once, getArea equals the exact integral of the basis, setHierarchicalCoefficients "
    "recomputes the values with the surrogate, and the evaluation tree is rebuilt whenever the loaded points change.",
    "Dense-times-coefficients == evaluate for Global/Sequence/Fourier/Wavelet (Lagrange, Newton, trigonometric and wavelet bases evaluated in loops) is numerical and NOT decided. "
    "Found and repaired through D1: getSupport<semilocalp> (cbfbc8a).",
    "DESIGN.md 4/C04")
CLAIMS["C09"] = (
    "R-MUST-PASS of an insert-or-park sink in every loadConstructedPoint overload, R-WHO-MAY-CALL for removal of parked samples, R-GUARD of candidate appends, R-PAIR-ORDER of the single-point "
    "expansion, R-SIBLING of the two GridGlobal overloads (eject after register) and of the root predicate of the single-sample and batch routes (partial evaluation), R-TYPESTATE of the per-tensor sample flags, R-SYMBOLIC inverse relation between the upward (getParent/getStepParent) and downward (getKid) hierarchy maps",
    "Static rule discharge of the order-insensitive skeleton of dynamic construction: no delivered sample is dropped on any path; parked samples leave the store only through the extraction "
    "routines; candidates exclude loaded and already-proposed tensors; the single-point expansion takes the sub-graph before and shifts indices after the insertion; a tensor that becomes "
    "complete is loaded whichever overload delivered the sample; and every point whose surplus depends on a new point is reachable from it in the sub-graph walk.",
    "Equality of the final grid over all permutations / batchings of a sample stream is a property of histories and is NOT decided; the rules are necessary conditions found by reading how "
    "order can matter. One known finding (F24, semi-local step-parents) and two repaired defects (57b61bc, 1b7a1c8).",
    "DESIGN.md 4/C09")

PENDING = {}

NOT_APPLICABLE = {}


# rules added in the third round of building (appended to the texts above so that each property's claim lists all of its deciding rules; RULES.md is the full inventory)
ADDENDA = {
    "C01": ("typestate of the completeness flag in computeDAGup (test of the direct parent precedes the fallback climb), containment of proposed tensor sets",
            " Added: the flag that admits the Kronecker algorithm is decided by the direct parent lookup on every path (D9); a proposed tensor set contains the current one (D8); dispatch on the rule instantiates the matching templates (D7).",
            ""),
    "C02": ("freshness of the Sequence/Fourier coefficients behind integrate(), coherence of the size-validated parent-DAG cache behind local polynomial quadrature weights",
            " Added: D6.fresh (coefficients recomputed after every change of values or points in the Sequence and Fourier grids), D7.cache (every replacement of the point set refreshes the cache that is validated by size only).",
            ""),
    "C03": ("coherence of the size-validated parent-DAG cache behind the interpolation weights",
            " Added: D7.cache (a point set replaced by another of the same size is never served by the stale parent DAG; found genuine defect F53).", ""),
    "C04": ("completeness-flag typestate (shared with C01), chain-rule layout shared with C10, sibling agreement of the transform corrections applied by the integral routes",
            " Added: D8.complete, D9.chain, D10.integrals (integrate, getQuadratureWeights and integrateHierarchicalFunctions must all apply the linear scale and the conformal weights; the last one does not: known finding F63).", ""),
    "C05": ("folding of the high-order Lagrange basis (loops and stateful local lambdas executed on concrete point indexes, x symbolic)",
            " Added: D1.power - for every local rule, orders {unbounded, 4, 5, 6} and point classes up to depth 13 (17 in the thorough tier) d/dx evalPWPower == diffPWPower as polynomial identities; D6.fill, D7.guard.", ""),
    "C06": ("typestate of members stored under one emptiness flag, order of reader-side rebuilds",
            " Added: D10.group (a method that sets the member tested by the writer also sets the members stored under that test; genuine defect F55), D5.order, D8.listorder, D9.counts.", ""),
    "C08": ("variant selection between a loop that reads the limits and one that does not",
            " Added: D6.unlimited (the variant without limit tests is selected by limits.empty() and nothing weaker; a local flag counts as its initialiser).", ""),
    "C09": ("sibling agreement of the root-injection condition of the batch loaders", " Added: D9.batchroots, D5.eject over every registration site (Global and Fourier).", ""),
    "C10": ("control-dependence independence of linear and conformal corrections, routing of every call into a grid class through the transforms (families read off the virtual interface)",
            " Added: D6.independent (a correction of one transform is never guarded by a test of the other), D7.routing (user points in through formCanonicalPoints, grid points out through formTransformedPoints, integrals scaled by both transforms; known finding F63).", ""),
    "C11": ("alias (self-copy) guard, folding of the output-range prologue of copyGrid",
            " Added: D7.alias (the source is not read after the destination started to change unless source == this was tested), D8.range (the effective end of the output range is the documented one for 18 (outputs, end) cases); genuine defect F60.", ""),
    "C12": ("non-const standard-container methods reached through pointer members, non-reentrant C library calls in the const closure",
            " Added: D3 now covers std container mutators behind unique_ptr members; D4.libc (no lgamma/rand/strtok/... in the const closure; genuine defect F61).", ""),
    "C13": ("injectivity of table-driven subscripts (justified list), purity (C12 closure) of const calls on shared objects inside parallel regions with a warm-up exception for state-guarded lazy caches",
            " Added: D1 accepts a subscript that goes through a lookup table only from the justified list (3 tables); D8.purecalls (365 const calls on shared objects in regions have a pure closure, or a lazily filled cache warmed by a dominating serial call; genuine defect F62).", ""),
    "C14": ("group typestate of the pending-refinement members (discovered from clearRefinement and the writer), nullable local smart pointers, negativity tests of stream counts that size containers, late failures in the API factories",
            " Added: D12.group (no throwing call while the pending-refinement group is partially written; the member whose emptiness the writer tests is set together with its companions), D13.nullable, D14.sized, D8 over make*; D2 counts changes made through own non-const methods. Genuine defects F54-F59.", ""),
}

# fourth round
ADDENDA2 = {
    "C08": " Added: D7.child (the level compared with the limit is the level of the child that is appended), D5.saturation also checks which sets the saturation test examines (tensors where a class has them).",
    "C12": " Added: D5.warm (the lazy build of the wavelet matrix in const methods is guarded by the size test alone: the documented warm-up contract).",
    "C03": " Added: D8.params (shared with C02-D5).",
    "C05": " Added: D8.wavelet (value / derivative pairing of the wavelet rule: piecewise closed forms for order 1, chain rule over the uninterpreted table interpolation for order 3 with a table of justified shortcuts, interpolate<1> == d/dx interpolate<0>).",
    "C10": " Added: D8.kinds (as C04-D13), D10.canonical (points that went through formCanonicalPoints are never handed to another API method), D9.extent (in-place corrections of output buffers run over the extent the sizing overload gives the buffer), D11.conformal (symbolic fold of the three conformal (asin) routines for truncations 0..5: forward map = Maclaurin polynomial of asin normalised at 1, inverse = Newton iteration on that polynomial with its derivative series and the step r/(dr/dx), weight factor = Jacobian of the forward map, also at x = 0).",
    "C02": " Added: D8.independent (linear scale and conformal correction of integrate()/getQuadratureWeights() never depend on each other, shared with C10-D6), D10.quadsize (the Gauss-Legendre rule behind the Sequence basis integrals is sized after the reduction over all directions), D9.workset (the set behind getGlobalPolynomialSpace is the set the weights are computed for, shared with C03-D4).",
    "C01": " D4.tree also covers dropping the needed points of a grid without loaded points (F86). Added: D11.ancestors (known finding F92); D10.restart (dependence analysis of the GMRES restart loop: every cycle starts from the residual of the current iterate, the iterate changes only through the Krylov reconstruction, F88). D5.vandermonde also executes the ancestor walk of van_matrix<pwc> row by row (concrete rows, exact arithmetic) and compares the collected ancestors with the ancestors whose basis function is non-zero at the node of the row (shared with C03-D3).",
    "C04": " D6.tree as in C01 (F86). Added: D11.restart (as C01-D10, F88: the transposed solve behind the weights), D12.vandermonde (entries of the Kronecker 1-D matrices are values of the basis evaluate() uses), D14.diffweights (product rule of the Sequence / Global / Fourier differentiation weights folded symbolically), D15.canonical (canonical coordinates are consumed by the grid object only, shared with C10-D10), D13.kinds (kind inference: nodal weights pair with nodal values, basis integrals with hierarchical coefficients in every integrate()).",
    "C06": " Added: D6 orders precision(17) before every floating point field; D12.nodes (Sequence node cache covers every converted index set); D13.perdim (per-dimension members rebuilt only from a non-empty set, F85); D14.sequenced (no call has two arguments that read from the stream - unspecified evaluation order; list initialisation is recognised through a new fact of the extractor), D15.accepts (readers reject on format, never on an order relation between restored values; positive control).",
    "C07": " Added: D9.norm for the Sequence grid (NaN-seeded running maximum, F74); D10.alloutputs (monotone accumulation over outputs); D11.limits (C08-D1.store shared), D12.child (C08-D7.child shared).",
    "C09": " Added: D10.keep (registrations with delivered samples survive a request for candidates, F81); D11.nodes; D13.scan (flag-building scans of the waiting samples have no early exit), D12.restrict (waiting samples of a copy keep the copied output range, shared with C11); D2 also asks that waiting samples are subtracted from the candidates (F91); D4.relations now evaluates the relations getSubGraph walks (F24 fixed).",
    "C11": " Added: D9.moved (never-null owning members re-seated by user-provided moves, F78); D8 also decides the first output (F79).",
    "C14": " Added: D15.family, D16.output (propositional check that output == -1 cannot reach a Global routine), D17.rawlen, D18.nopoints, D19.modes, D20.tablebound (level + 1 <= getNumLevels() on the side that keeps using a table, symbolic normal form), D21.cwrap (C entry points that wrap a read catch both exception types, F93) (F72-F80).",
    "C15": " Added: the snapshot test is reached in every iteration (per-iteration must-pass); D6.forward (the sampling form is forwarded unchanged between instantiations).",
    "C16": " Added: D10.init (scalar members of every constructor, library-wide), D11.readonly, D12.coefflayout (symbolic layout pairs of writer and setter), D13.xfile, D14.limits, D15.rejected (F64-F66, F82-F84; extended to every row read of a rejected option matrix, F94), D16.contour ('curved' is decided from the contour of the depth type), D17.refine (family dispatch of -refine equals the API's family guard, F95).",
    "C17": " Added: D9.header (header counts are vector sizes), D10.reopen (streams that outlive an attempt are closed on every way out; positive control in instantiate/controls.cpp), D5 also asks for the parked samples (known finding F67).",
    "C18": " Added: D7.extent (job output buffers get an exact size on every path, and the size given by resize() is symbolically num_outputs times the number of points of this batch).",
    "C19": " Added: D4.nan (the line search ends only on a comparison that holds, F68). Added: D5.reentrant (no static / thread-local working storage; positive control).",
    "C20": " Added: D3.cache for the particle positions and masked re-evaluation of best strips (F69-F71). Added: D6.sync (flag raised only after update() on every path), D7.stale (must-analysis: cache flag is down while user callbacks run on new positions, F89), D2 reconciliation of the swarm best (F90), D8.reentrant.",
}


def main():
    for pid, (tech_add, text_add, note_add) in ADDENDA.items():
        tech, text, note, ref = CLAIMS[pid]
        CLAIMS[pid] = (tech + "; " + tech_add, text + text_add, note + note_add, ref)
    for pid, text_add in ADDENDA2.items():
        tech, text, note, ref = CLAIMS[pid]
        CLAIMS[pid] = (tech, text + text_add, note, ref)
    props = [json.loads(l) for l in open(os.path.join(HERE, "properties.jsonl"))]
    checks = []
    na = []
    for p in props:
        pid = p["id"]
        if pid in CLAIMS:
            tech, text, note, ref = CLAIMS[pid]
            checks.append({
                "property_id": pid,
                "quick_cmd": "./check %s --tier quick" % pid,
                "thorough_cmd": "./check %s --tier thorough" % pid,
                "evidence_file": "evidence/%s.json" % pid,
                "replay_cmd_template": "./check %s --replay {path}" % pid,
                "engine": "tsgfacts+rules",
                "level_claimed": {"category": "other", "text": text, "design_ref": ref},
                "level_note": note,
                "technique": "static analysis: " + tech,
            })
        elif pid in NOT_APPLICABLE:
            na.append({"property_id": pid, "reason": NOT_APPLICABLE[pid]})
        else:
            na.append({"property_id": pid, "reason": PENDING.get(pid, "static check designed (DESIGN.md section 4) but not built yet; not claimed until its rule driver exists and is silent on the unchanged tree")})
    m = {
        "version": 1,
        "setup_cmd": "make -s -C engine && python3-vt -m tsg.build",
        "hooks": {
            "guard": "MKSTOYANOV_TASMANIAN_VERIF",
            "enable": "no hooks are needed: the checks parse /repo's unmodified sources (cmake configure only, nothing is compiled or run)",
            "baseline_off_cmd": "cmake -G Ninja -S /repo -B /repo/_build -DCMAKE_BUILD_TYPE=RelWithDebInfo && cmake --build /repo/_build -j16 && ctest --test-dir /repo/_build -j8 --timeout 900",
            "source_commits": [],
            "add_only": True,
        },
        "engines": [
            {"name": "tsgfacts", "path": "engine/tsgfacts.cc", "serves_properties": sorted(CLAIMS),
             "kind_free_text": "libTooling (clang 14) fact extractor: resolved AST + CFG + OpenMP directive tree + class layouts per translation unit, serial and -fopenmp configurations"},
            {"name": "rules", "path": "rules/", "serves_properties": sorted(CLAIMS),
             "kind_free_text": "python rule drivers (dataflow, dominance, sibling agreement, coverage, effect sets, symbolic identities) over the extracted facts"},
        ],
        "checks": checks,
        "not_applicable": na,
        "notes": "Technique family: static analysis only. exit 0 = all obligations discharged; exit 1 + VIOLATION line = a rule instance fails; "
                 "exit 2 = analysis broken (parse failure, vanished anchor, rule below its hand-confirmed instance floor). Known genuine defects that are "
                 "recorded rather than repaired are in known_findings.json and print KNOWN-FINDING lines.",
    }
    with open(os.path.join(HERE, "MANIFEST.json"), "w") as fh:
        json.dump(m, fh, indent=1)
    print("MANIFEST.json: %d checks, %d not applicable/pending" % (len(checks), len(na)))


if __name__ == "__main__":
    main()
