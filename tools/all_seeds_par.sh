#!/bin/bash
# tools/all_seeds_par.sh [N] [regex] : the regression of tools/all_seeds.sh run by N workers (default 4), each in its own scratch
# worktree of /repo's HEAD under /tmp/seedreg (removed at the end), so that /repo itself stays untouched.
# One line per seed: DETECTED (exit 1 with a violated rule), MISSED (exit 0) or BROKEN (exit 2).
N=${1:-4}; RE=$2
cd /verif
mkdir -p /tmp/seedreg .work/seedreg; rm -f .work/seedreg/*.out
for i in $(seq 1 $N); do
  git -C /repo worktree remove --force /tmp/seedreg/w$i >/dev/null 2>&1
  git -C /repo worktree add --detach /tmp/seedreg/w$i HEAD >/dev/null 2>&1 || { echo "cannot create worktree $i"; exit 2; }
done
ls -d seeded/*/ | while read d; do name=$(basename $d); if [ -n "$RE" ] && ! [[ "$name" =~ $RE ]]; then continue; fi; echo $name; done > .work/seedreg/list
worker() {
  i=$1
  awk -v n=$N -v i=$i 'NR % n == i % n' .work/seedreg/list | while read name; do
    d=seeded/$name
    prop=$(python3 -c "import json;print(json.load(open('$d/meta.json'))['property'])")
    patch=$d/patch.diff; [ -f $d/patch.head.diff ] && patch=$d/patch.head.diff
    out=$(TSG_REPO=/tmp/seedreg/w$i tools/try_seed.sh /verif/$patch $prop 2>&1)
    rc=$(echo "$out" | sed -n 's/^--- .*: exit \([0-9]*\)$/\1/p' | head -1)
    case "$rc" in 1) verdict=DETECTED;; 0) verdict=MISSED;; *) verdict="BROKEN($rc)";; esac
    rule=$(echo "$out" | grep -m1 "violated" | sed -n 's/.*: \(C[0-9]*-D[0-9A-Za-z.]*\) violated.*/\1/p')
    echo "$name $prop $verdict $rule" >> .work/seedreg/w$i.out
    [ -z "$rc" ] && echo "$out" | head -3 >> .work/seedreg/w$i.out
  done
}
for i in $(seq 1 $N); do worker $i & done
wait
cat .work/seedreg/w*.out | sort
for i in $(seq 1 $N); do git -C /repo worktree remove --force /tmp/seedreg/w$i >/dev/null 2>&1; done
git -C /repo worktree prune
