// tsgfacts: libTooling fact extractor for the TASMANIAN static checks.
//
// For one translation unit it writes a JSON file with
//   * every function definition whose body is spelled in a file under one of the
//     --root prefixes (template instantiations and lambda call operators included):
//     signature facts, the body as a tree of resolved AST nodes, and the clang CFG
//     (blocks -> ordered node ids, terminator, condition, successors);
//   * class layouts (fields, mutability, bases), enums, and
//   * OpenMP directives as ordinary nodes (kind, clauses, associated statement).
// Callees, members and variables are identified through their declarations, never
// through spelling.  Nothing is executed.
//
// usage: tsgfacts --out=facts.json --root=/repo/ [--root=...] -- <compile flags> file.cpp

#include "clang/AST/ASTConsumer.h"
#include "clang/AST/ASTContext.h"
#include "clang/AST/DeclCXX.h"
#include "clang/AST/DeclTemplate.h"
#include "clang/AST/ExprCXX.h"
#include "clang/AST/ExprOpenMP.h"
#include "clang/AST/OpenMPClause.h"
#include "clang/AST/RecursiveASTVisitor.h"
#include "clang/AST/StmtCXX.h"
#include "clang/AST/StmtOpenMP.h"
#include "clang/Analysis/CFG.h"
#include "clang/Basic/SourceManager.h"
#include "clang/Frontend/CompilerInstance.h"
#include "clang/Frontend/FrontendAction.h"
#include "clang/Tooling/CompilationDatabase.h"
#include "clang/Tooling/Tooling.h"
#include "llvm/Support/CommandLine.h"
#include "llvm/Support/raw_ostream.h"

#include <map>
#include <set>
#include <string>
#include <vector>

using namespace clang;

static std::vector<std::string> gRoots;
static std::string gOut;

// ------------------------------------------------------------------ JSON helpers
static std::string jstr(llvm::StringRef s) {
  std::string o = "\"";
  for (unsigned char c : s) {
    switch (c) {
    case '"': o += "\\\""; break;
    case '\\': o += "\\\\"; break;
    case '\n': o += "\\n"; break;
    case '\r': o += "\\r"; break;
    case '\t': o += "\\t"; break;
    default:
      if (c < 0x20) { char b[8]; snprintf(b, sizeof b, "\\u%04x", c); o += b; }
      else o += (char)c;
    }
  }
  o += "\"";
  return o;
}

namespace {

class Extractor {
public:
  ASTContext &Ctx;
  SourceManager &SM;
  PrintingPolicy PP;
  llvm::raw_ostream &OS;
  std::map<const Decl *, unsigned> declIds;
  std::map<const Stmt *, unsigned> stmtIds; // per function
  unsigned nextStmt = 0;
  bool firstFn = true;
  std::set<std::string> seenFn;
  std::set<const CXXRecordDecl *> seenRec;
  std::set<const EnumDecl *> seenEnum;
  std::string records, enums;

  Extractor(ASTContext &C, llvm::raw_ostream &os)
      : Ctx(C), SM(C.getSourceManager()), PP(C.getLangOpts()), OS(os) {
    PP.SuppressTagKeyword = true;
    PP.Bool = true;
    PP.TerseOutput = true;
    PP.SuppressUnwrittenScope = true;
  }

  std::string fileOf(SourceLocation L) {
    L = SM.getExpansionLoc(L);
    if (L.isInvalid()) return "";
    return SM.getFilename(L).str();
  }
  unsigned lineOf(SourceLocation L) {
    L = SM.getExpansionLoc(L);
    if (L.isInvalid()) return 0;
    return SM.getExpansionLineNumber(L);
  }
  bool inRoots(SourceLocation L) {
    std::string f = fileOf(L);
    for (auto &r : gRoots)
      if (f.compare(0, r.size(), r) == 0) return true;
    return false;
  }
  unsigned declId(const Decl *D) {
    D = D->getCanonicalDecl();
    auto it = declIds.find(D);
    if (it != declIds.end()) return it->second;
    unsigned id = declIds.size() + 1;
    declIds[D] = id;
    return id;
  }
  std::string typeStr(QualType T) {
    if (T.isNull()) return "";
    return T.getAsString(PP);
  }
  std::string targsOf(const FunctionDecl *FD) {
    std::string s;
    if (auto *TA = FD->getTemplateSpecializationArgs()) {
      llvm::raw_string_ostream o(s);
      bool first = true;
      for (auto &A : TA->asArray()) {
        if (!first) o << ",";
        first = false;
        A.print(PP, o, true);
      }
    }
    return s;
  }
  std::string classTargs(const DeclContext *DC) {
    std::string s;
    while (DC) {
      if (auto *SD = dyn_cast<ClassTemplateSpecializationDecl>(DC)) {
        llvm::raw_string_ostream o(s);
        bool first = true;
        for (auto &A : SD->getTemplateArgs().asArray()) {
          if (!first) o << ",";
          first = false;
          A.print(PP, o, true);
        }
        o << ";";
      }
      DC = DC->getParent();
    }
    return s;
  }
  std::string qname(const NamedDecl *ND) {
    if (!ND) return "";
    std::string s;
    llvm::raw_string_ostream o(s);
    ND->printQualifiedName(o, PP);
    return o.str();
  }
  // name of a function including the enclosing function for lambdas
  std::string fnName(const FunctionDecl *FD) {
    if (auto *MD = dyn_cast<CXXMethodDecl>(FD)) {
      if (MD->getParent()->isLambda()) {
        const DeclContext *DC = MD->getParent()->getDeclContext();
        while (DC && !isa<FunctionDecl>(DC)) DC = DC->getParent();
        std::string outer = DC ? fnKey(cast<FunctionDecl>(DC)) : std::string("?");
        return outer + "::lambda@" + std::to_string(lineOf(MD->getParent()->getBeginLoc()));
      }
    }
    return qname(FD);
  }
  std::string fnKey(const FunctionDecl *FD) {
    std::string k = fnName(FD);
    std::string ta = targsOf(FD);
    std::string ca = classTargs(FD->getDeclContext());
    if (!ca.empty()) k += "{" + ca + "}";
    if (!ta.empty()) k += "<" + ta + ">";
    return k;
  }
  std::string sigOf(const FunctionDecl *FD) {
    std::string s = "(";
    for (unsigned i = 0; i < FD->getNumParams(); i++) {
      if (i) s += ",";
      s += typeStr(FD->getParamDecl(i)->getType());
    }
    s += ")";
    if (auto *MD = dyn_cast<CXXMethodDecl>(FD))
      if (MD->isConst()) s += "const";
    return s;
  }

  // ---------------------------------------------------------------- node dumping
  unsigned sid(const Stmt *S) {
    auto it = stmtIds.find(S);
    if (it != stmtIds.end()) return it->second;
    unsigned id = ++nextStmt;
    stmtIds[S] = id;
    return id;
  }

  void refDecl(const ValueDecl *VD) {
    if (!VD) return;
    if (auto *FD = dyn_cast<FunctionDecl>(VD)) {
      OS << ",\"fn\":" << jstr(fnName(FD));
      std::string ta = targsOf(FD);
      if (!ta.empty()) OS << ",\"targs\":" << jstr(ta);
      std::string ca = classTargs(FD->getDeclContext());
      if (!ca.empty()) OS << ",\"cargs\":" << jstr(ca);
      OS << ",\"key\":" << jstr(fnKey(FD)) << ",\"csig\":" << jstr(sigOf(FD));
      if (auto *MD = dyn_cast<CXXMethodDecl>(FD)) {
        if (MD->isConst()) OS << ",\"cm\":1";
        if (MD->isVirtual()) OS << ",\"virt\":1";
        if (MD->isStatic()) OS << ",\"static\":1";
      }
      return;
    }
    if (auto *Fld = dyn_cast<FieldDecl>(VD)) {
      OS << ",\"field\":" << jstr(qname(Fld));
      if (Fld->isMutable()) OS << ",\"mut\":1";
      return;
    }
    if (auto *EC = dyn_cast<EnumConstantDecl>(VD)) {
      OS << ",\"enumc\":" << jstr(qname(EC)) << ",\"val\":" << jstr(llvm::toString(EC->getInitVal(), 10));
      return;
    }
    if (auto *Var = dyn_cast<VarDecl>(VD)) {
      OS << ",\"var\":" << jstr(Var->getNameAsString()) << ",\"did\":" << declId(Var);
      if (isa<ParmVarDecl>(Var)) OS << ",\"parm\":1";
      if (Var->hasGlobalStorage()) {
        OS << ",\"global\":" << jstr(qname(Var));
        if (Var->isStaticLocal()) OS << ",\"staticlocal\":1";
        if (Var->getType().isConstQualified() || Var->isConstexpr()) OS << ",\"constvar\":1";
      }
      return;
    }
    OS << ",\"other\":" << jstr(qname(VD));
  }


  static bool isMutParam(QualType T) {
    if (T->isLValueReferenceType()) return !T->getPointeeType().isConstQualified();
    if (T->isPointerType()) return !T->getPointeeType().isConstQualified();
    return false;
  }
  void mutArgs(const FunctionDecl *FD, unsigned nargs, unsigned shift) {
    // indices (in call-argument numbering) bound to non-const reference / pointer parameters
    std::string s;
    for (unsigned i = 0; i + shift < nargs && i < FD->getNumParams(); i++) {
      if (isMutParam(FD->getParamDecl(i)->getType())) {
        if (!s.empty()) s += ",";
        s += std::to_string(i + shift);
      }
    }
    if (!s.empty()) OS << ",\"mutargs\":[" << s << "]";
  }

  void dumpVarDecl(const VarDecl *VD) {
    OS << "{\"k\":\"VarDecl\",\"name\":" << jstr(VD->getNameAsString()) << ",\"did\":" << declId(VD)
       << ",\"t\":" << jstr(typeStr(VD->getType())) << ",\"l\":" << lineOf(VD->getLocation());
    if (VD->isStaticLocal()) OS << ",\"staticlocal\":1";
    if (VD->getType().isConstQualified()) OS << ",\"const\":1";
    if (VD->getType()->isReferenceType()) OS << ",\"ref\":1";
    OS << ",\"c\":[";
    if (VD->hasInit()) dumpStmt(VD->getInit());
    OS << "]}";
  }

  void dumpChildren(const Stmt *S) {
    bool first = true;
    for (const Stmt *C : S->children()) {
      if (!first) OS << ",";
      first = false;
      if (C) dumpStmt(C);
      else OS << "null";
    }
  }

  void dumpOMP(const OMPExecutableDirective *D) {
    OS << ",\"omp\":" << jstr(getOpenMPDirectiveName(D->getDirectiveKind()));
    OS << ",\"clauses\":[";
    bool first = true;
    for (const OMPClause *C : D->clauses()) {
      if (!C) continue;
      if (!first) OS << ",";
      first = false;
      OS << "{\"kind\":" << jstr(llvm::omp::getOpenMPClauseName(C->getClauseKind()));
      std::string txt;
      {
        llvm::raw_string_ostream o(txt);
        OMPClausePrinter P(o, PP);
        P.Visit(const_cast<OMPClause *>(C));
      }
      OS << ",\"text\":" << jstr(txt);
      OS << ",\"vars\":[";
      bool f2 = true;
      for (const Stmt *Ch : const_cast<OMPClause *>(C)->children()) {
        if (!Ch) continue;
        const Expr *E = dyn_cast<Expr>(Ch);
        if (!E) continue;
        E = E->IgnoreParenImpCasts();
        if (auto *DRE = dyn_cast<DeclRefExpr>(E)) {
          if (auto *V = dyn_cast<VarDecl>(DRE->getDecl())) {
            if (!f2) OS << ",";
            f2 = false;
            OS << "{\"var\":" << jstr(V->getNameAsString()) << ",\"did\":" << declId(V) << "}";
          }
        }
      }
      OS << "]}";
    }
    OS << "]";
    if (auto *CD = dyn_cast<OMPCriticalDirective>(D)) {
      OS << ",\"critname\":" << jstr(CD->getDirectiveName().getAsString());
    }
    OS << ",\"c\":[";
    if (D->hasAssociatedStmt()) {
      const Stmt *A = D->getAssociatedStmt();
      while (A && isa<CapturedStmt>(A)) A = cast<CapturedStmt>(A)->getCapturedStmt();
      if (A) dumpStmt(A);
    }
    OS << "]";
  }


  static const Stmt *unwrap(const Stmt *S) {
    // transparent wrappers are skipped to keep the trees small and rule code simple
    while (S) {
      if (auto *E = dyn_cast<ExprWithCleanups>(S)) { S = E->getSubExpr(); continue; }
      if (auto *E = dyn_cast<MaterializeTemporaryExpr>(S)) { S = E->getSubExpr(); continue; }
      if (auto *E = dyn_cast<CXXBindTemporaryExpr>(S)) { S = E->getSubExpr(); continue; }
      if (auto *E = dyn_cast<ConstantExpr>(S)) { S = E->getSubExpr(); continue; }
      if (auto *E = dyn_cast<CXXDefaultArgExpr>(S)) { S = E->getExpr(); continue; }
      if (auto *E = dyn_cast<CXXDefaultInitExpr>(S)) { S = E->getExpr(); continue; }
      if (auto *E = dyn_cast<SubstNonTypeTemplateParmExpr>(S)) { S = E->getReplacement(); continue; }
      break;
    }
    return S;
  }

  void dumpStmt(const Stmt *S) {
    // transparent wrappers are skipped to keep the trees small and rule code simple
    S = unwrap(S);
    OS << "{\"k\":" << jstr(S->getStmtClassName()) << ",\"id\":" << sid(S) << ",\"l\":" << lineOf(S->getBeginLoc());
    if (auto *E = dyn_cast<Expr>(S)) {
      OS << ",\"t\":" << jstr(typeStr(E->getType()));
    }
    if (auto *DS = dyn_cast<DeclStmt>(S)) {
      OS << ",\"c\":[";
      bool first = true;
      for (const Decl *D : DS->decls()) {
        if (auto *VD = dyn_cast<VarDecl>(D)) {
          if (!first) OS << ",";
          first = false;
          dumpVarDecl(VD);
        }
      }
      OS << "]}";
      return;
    }
    if (auto *D = dyn_cast<OMPExecutableDirective>(S)) {
      dumpOMP(D);
      OS << "}";
      return;
    }
    if (auto *LE = dyn_cast<LambdaExpr>(S)) {
      const CXXMethodDecl *Op = LE->getCallOperator();
      OS << ",\"lambda\":" << jstr(fnKey(Op));
      OS << ",\"captures\":[";
      bool first = true;
      for (auto &C : LE->captures()) {
        if (!C.capturesVariable()) {
          if (C.capturesThis()) { if (!first) OS << ","; first = false; OS << "{\"this\":1}"; }
          continue;
        }
        if (!first) OS << ",";
        first = false;
        OS << "{\"var\":" << jstr(C.getCapturedVar()->getNameAsString()) << ",\"did\":" << declId(C.getCapturedVar())
           << ",\"byref\":" << (C.getCaptureKind() == LCK_ByRef ? 1 : 0) << "}";
      }
      OS << "],\"params\":[";
      for (unsigned i = 0; i < Op->getNumParams(); i++) {
        if (i) OS << ",";
        dumpVarDecl(Op->getParamDecl(i));
      }
      OS << "],\"c\":[";
      if (Op->getBody()) dumpStmt(Op->getBody());
      OS << "]}";
      return;
    }
    if (auto *E = dyn_cast<DeclRefExpr>(S)) {
      refDecl(E->getDecl());
      // compile-time constants (constexpr variables, std::is_same<..>::value): record the value
      if (auto *VD = dyn_cast<VarDecl>(E->getDecl())) {
        if (!E->isValueDependent() && !E->isTypeDependent() && E->getType()->isIntegralOrEnumerationType() &&
            (VD->isConstexpr() || VD->getType().isConstQualified()) && VD->hasGlobalStorage()) {
          Expr::EvalResult R;
          if (E->EvaluateAsInt(R, Ctx)) OS << ",\"cv\":" << jstr(llvm::toString(R.Val.getInt(), 10));
        }
      }
    } else if (auto *E = dyn_cast<MemberExpr>(S)) {
      refDecl(E->getMemberDecl());
      if (E->isArrow()) OS << ",\"arrow\":1";
    } else if (auto *E = dyn_cast<CXXConstructExpr>(S)) {
      refDecl(E->getConstructor());
      OS << ",\"ctor\":" << jstr(qname(E->getConstructor()->getParent()));
      if (E->isListInitialization()) OS << ",\"listinit\":1";   // T{a, b}: the arguments are evaluated left to right
      mutArgs(E->getConstructor(), E->getNumArgs(), 0);
    } else if (auto *E = dyn_cast<CXXOperatorCallExpr>(S)) {
      OS << ",\"op\":" << jstr(getOperatorSpelling(E->getOperator()));
      if (auto *FD = E->getDirectCallee()) {
        refDecl(FD);
        bool member = isa<CXXMethodDecl>(FD) && !cast<CXXMethodDecl>(FD)->isStatic();
        mutArgs(FD, E->getNumArgs(), member ? 1 : 0);
      }
    } else if (auto *E = dyn_cast<CallExpr>(S)) {
      if (auto *FD = E->getDirectCallee()) {
        refDecl(FD);
        mutArgs(FD, E->getNumArgs(), 0);
      }
    } else if (auto *E = dyn_cast<BinaryOperator>(S)) {
      OS << ",\"op\":" << jstr(E->getOpcodeStr());
    } else if (auto *E = dyn_cast<UnaryOperator>(S)) {
      OS << ",\"op\":" << jstr(UnaryOperator::getOpcodeStr(E->getOpcode())) << ",\"postfix\":" << (E->isPostfix() ? 1 : 0);
    } else if (auto *E = dyn_cast<IntegerLiteral>(S)) {
      OS << ",\"val\":" << jstr(llvm::toString(E->getValue(), 10, E->getType()->isSignedIntegerType()));
    } else if (auto *E = dyn_cast<FloatingLiteral>(S)) {
      llvm::SmallString<32> b;
      E->getValue().toString(b, 17);
      OS << ",\"val\":" << jstr(b);
    } else if (auto *E = dyn_cast<CXXBoolLiteralExpr>(S)) {
      OS << ",\"val\":" << (E->getValue() ? "\"true\"" : "\"false\"");
    } else if (auto *E = dyn_cast<clang::StringLiteral>(S)) {
      if (E->isAscii()) OS << ",\"val\":" << jstr(E->getString());
    } else if (auto *E = dyn_cast<CharacterLiteral>(S)) {
      OS << ",\"val\":" << jstr(std::to_string(E->getValue()));
    } else if (auto *E = dyn_cast<UnaryExprOrTypeTraitExpr>(S)) {
      OS << ",\"trait\":" << jstr(getTraitSpelling(E->getKind()));
      if (E->isArgumentType()) OS << ",\"argt\":" << jstr(typeStr(E->getArgumentType()));
    } else if (auto *E = dyn_cast<ExplicitCastExpr>(S)) {
      OS << ",\"to\":" << jstr(typeStr(E->getTypeAsWritten()));
    } else if (auto *E = dyn_cast<ImplicitCastExpr>(S)) {
      OS << ",\"cast\":" << jstr(E->getCastKindName());
    } else if (auto *E = dyn_cast<CXXNewExpr>(S)) {
      OS << ",\"newt\":" << jstr(typeStr(E->getAllocatedType()));
    } else if (auto *E = dyn_cast<CXXTemporaryObjectExpr>(S)) {
      (void)E;
    } else if (auto *E = dyn_cast<CXXCatchStmt>(S)) {
      OS << ",\"catch\":" << jstr(E->getExceptionDecl() ? typeStr(E->getCaughtType()) : std::string("..."));
    } else if (auto *E = dyn_cast<CXXDependentScopeMemberExpr>(S)) {
      OS << ",\"dep\":" << jstr(E->getMember().getAsString());
    } else if (auto *E = dyn_cast<UnresolvedLookupExpr>(S)) {
      OS << ",\"dep\":" << jstr(E->getName().getAsString());
    } else if (auto *E = dyn_cast<UnresolvedMemberExpr>(S)) {
      OS << ",\"dep\":" << jstr(E->getMemberName().getAsString());
    } else if (auto *E = dyn_cast<CXXForRangeStmt>(S)) {
      if (E->getLoopVariable()) OS << ",\"loopvar\":" << jstr(E->getLoopVariable()->getNameAsString()) << ",\"did\":" << declId(E->getLoopVariable());
    } else if (auto *E = dyn_cast<IfStmt>(S)) {
      if (E->isConstexpr()) OS << ",\"constexpr\":1";
    }
    // named sub-structure for control statements (children() order is fragile)
    if (auto *E = dyn_cast<IfStmt>(S)) {
      OS << ",\"cond\":"; dumpStmt(E->getCond());
      OS << ",\"then\":"; if (E->getThen()) dumpStmt(E->getThen()); else OS << "null";
      OS << ",\"else\":"; if (E->getElse()) dumpStmt(E->getElse()); else OS << "null";
      if (E->getInit()) { OS << ",\"init\":"; dumpStmt(E->getInit()); }
      if (E->getConditionVariableDeclStmt()) { OS << ",\"condvar\":"; dumpStmt(E->getConditionVariableDeclStmt()); }
      OS << "}";
      return;
    }
    if (auto *E = dyn_cast<ForStmt>(S)) {
      OS << ",\"init\":"; if (E->getInit()) dumpStmt(E->getInit()); else OS << "null";
      OS << ",\"cond\":"; if (E->getCond()) dumpStmt(E->getCond()); else OS << "null";
      OS << ",\"inc\":"; if (E->getInc()) dumpStmt(E->getInc()); else OS << "null";
      OS << ",\"body\":"; if (E->getBody()) dumpStmt(E->getBody()); else OS << "null";
      OS << "}";
      return;
    }
    if (auto *E = dyn_cast<WhileStmt>(S)) {
      OS << ",\"cond\":"; dumpStmt(E->getCond());
      OS << ",\"body\":"; if (E->getBody()) dumpStmt(E->getBody()); else OS << "null";
      OS << "}";
      return;
    }
    if (auto *E = dyn_cast<DoStmt>(S)) {
      OS << ",\"body\":"; if (E->getBody()) dumpStmt(E->getBody()); else OS << "null";
      OS << ",\"cond\":"; dumpStmt(E->getCond());
      OS << "}";
      return;
    }
    if (auto *E = dyn_cast<CXXForRangeStmt>(S)) {
      OS << ",\"range\":"; if (E->getRangeInit()) dumpStmt(E->getRangeInit()); else OS << "null";
      OS << ",\"lv\":"; if (E->getLoopVariable()) dumpVarDecl(E->getLoopVariable()); else OS << "null";
      OS << ",\"body\":"; if (E->getBody()) dumpStmt(E->getBody()); else OS << "null";
      OS << "}";
      return;
    }
    if (auto *E = dyn_cast<SwitchStmt>(S)) {
      OS << ",\"cond\":"; dumpStmt(E->getCond());
      OS << ",\"body\":"; if (E->getBody()) dumpStmt(E->getBody()); else OS << "null";
      OS << "}";
      return;
    }
    if (auto *E = dyn_cast<CaseStmt>(S)) {
      OS << ",\"lhs\":"; dumpStmt(E->getLHS());
      OS << ",\"sub\":"; if (E->getSubStmt()) dumpStmt(E->getSubStmt()); else OS << "null";
      OS << "}";
      return;
    }
    if (auto *E = dyn_cast<DefaultStmt>(S)) {
      OS << ",\"sub\":"; if (E->getSubStmt()) dumpStmt(E->getSubStmt()); else OS << "null";
      OS << "}";
      return;
    }
    if (auto *E = dyn_cast<CXXCatchStmt>(S)) {
      OS << ",\"c\":["; if (E->getHandlerBlock()) dumpStmt(E->getHandlerBlock()); OS << "]}";
      return;
    }
    if (auto *E = dyn_cast<InitListExpr>(S)) {
      if (E->isSemanticForm() && E->getSyntacticForm()) { /* use semantic */ }
    }
    OS << ",\"c\":[";
    dumpChildren(S);
    OS << "]}";
  }

  // ----------------------------------------------------------------- CFG dumping
  void dumpCFG(const FunctionDecl *FD) {
    CFG::BuildOptions BO;
    BO.setAllAlwaysAdd();
    BO.AddImplicitDtors = true;
    BO.AddTemporaryDtors = false;
    BO.AddEHEdges = false;
    BO.PruneTriviallyFalseEdges = false;
    std::unique_ptr<CFG> G = CFG::buildCFG(FD, FD->getBody(), &Ctx, BO);
    if (!G) { OS << "null"; return; }
    OS << "{\"entry\":" << G->getEntry().getBlockID() << ",\"exit\":" << G->getExit().getBlockID() << ",\"blocks\":[";
    bool firstB = true;
    for (const CFGBlock *B : *G) {
      if (!firstB) OS << ",";
      firstB = false;
      OS << "{\"id\":" << B->getBlockID() << ",\"e\":[";
      bool first = true;
      for (const CFGElement &El : *B) {
        if (auto St = El.getAs<CFGStmt>()) {
          const Stmt *S = St->getStmt();
          auto it = stmtIds.find(S);
          if (it == stmtIds.end()) continue; // wrapper nodes: their sub-expression is its own element
          if (!first) OS << ",";
          first = false;
          OS << it->second;
        } else if (auto AD = El.getAs<CFGAutomaticObjDtor>()) {
          if (!first) OS << ",";
          first = false;
          OS << "{\"dtor\":" << declId(AD->getVarDecl()) << ",\"name\":" << jstr(AD->getVarDecl()->getNameAsString())
             << ",\"t\":" << jstr(typeStr(AD->getVarDecl()->getType())) << "}";
        }
      }
      OS << "]";
      if (const Stmt *T = B->getTerminatorStmt()) {
        auto it = stmtIds.find(T);
        OS << ",\"term\":" << (it != stmtIds.end() ? (int)it->second : -1);
        OS << ",\"termk\":" << jstr(T->getStmtClassName());
      }
      if (const Stmt *C = B->getTerminatorCondition(false)) {
        const Stmt *S = unwrap(C);
        auto it = stmtIds.find(S);
        OS << ",\"cond\":" << (it != stmtIds.end() ? (int)it->second : -1);
      }
      OS << ",\"s\":[";
      first = true;
      for (auto I = B->succ_begin(); I != B->succ_end(); ++I) {
        if (!first) OS << ",";
        first = false;
        const CFGBlock *Sx = I->getReachableBlock();
        if (!Sx) Sx = I->getPossiblyUnreachableBlock();
        if (Sx) OS << Sx->getBlockID(); else OS << "null";
      }
      OS << "]}";
    }
    OS << "]}";
  }

  // ------------------------------------------------------------ function dumping
  void dumpFunction(const FunctionDecl *FD) {
    if (!FD->doesThisDeclarationHaveABody()) return;
    if (FD->isDependentContext()) return;
    if (!inRoots(FD->getLocation())) return;
    std::string key = fnKey(FD) + sigOf(FD);
    if (!seenFn.insert(key).second) return;
    stmtIds.clear();
    nextStmt = 0;
    if (!firstFn) OS << ",\n";
    firstFn = false;
    OS << "{\"key\":" << jstr(fnKey(FD)) << ",\"name\":" << jstr(fnName(FD)) << ",\"sig\":" << jstr(sigOf(FD))
       << ",\"file\":" << jstr(fileOf(FD->getLocation())) << ",\"line\":" << lineOf(FD->getLocation())
       << ",\"endline\":" << lineOf(FD->getEndLoc()) << ",\"ret\":" << jstr(typeStr(FD->getReturnType()));
    std::string ta = targsOf(FD);
    if (!ta.empty()) OS << ",\"targs\":" << jstr(ta);
    std::string ca = classTargs(FD->getDeclContext());
    if (!ca.empty()) OS << ",\"cargs\":" << jstr(ca);
    if (FD->isTemplateInstantiation()) OS << ",\"inst\":1";
    if (auto *MD = dyn_cast<CXXMethodDecl>(FD)) {
      OS << ",\"class\":" << jstr(qname(MD->getParent()));
      if (MD->isConst()) OS << ",\"const\":1";
      if (MD->isVirtual()) OS << ",\"virtual\":1";
      if (MD->isStatic()) OS << ",\"static\":1";
      if (MD->getParent()->isLambda()) OS << ",\"islambda\":1";
      const char *acc = "none";
      switch (MD->getAccess()) { case AS_public: acc = "public"; break; case AS_protected: acc = "protected"; break; case AS_private: acc = "private"; break; default: break; }
      OS << ",\"access\":" << jstr(acc);
      OS << ",\"overrides\":[";
      bool first = true;
      for (auto *O : MD->overridden_methods()) {
        if (!first) OS << ",";
        first = false;
        OS << jstr(qname(O));
      }
      OS << "]";
      if (isa<CXXConstructorDecl>(MD)) OS << ",\"isctor\":1";
      if (isa<CXXDestructorDecl>(MD)) OS << ",\"isdtor\":1";
    }
    OS << ",\"params\":[";
    for (unsigned i = 0; i < FD->getNumParams(); i++) {
      if (i) OS << ",";
      const ParmVarDecl *P = FD->getParamDecl(i);
      OS << "{\"name\":" << jstr(P->getNameAsString()) << ",\"did\":" << declId(P) << ",\"t\":" << jstr(typeStr(P->getType())) << "}";
    }
    OS << "]";
    if (auto *CD = dyn_cast<CXXConstructorDecl>(FD)) {
      OS << ",\"inits\":[";
      bool first = true;
      for (const CXXCtorInitializer *I : CD->inits()) {
        if (!first) OS << ",";
        first = false;
        OS << "{\"written\":" << (I->isWritten() ? 1 : 0);
        if (I->isAnyMemberInitializer() && I->getAnyMember()) OS << ",\"field\":" << jstr(qname(I->getAnyMember()));
        else if (I->isBaseInitializer()) OS << ",\"base\":" << jstr(typeStr(QualType(I->getBaseClass(), 0)));
        else if (I->isDelegatingInitializer()) OS << ",\"delegating\":1";
        OS << ",\"l\":" << lineOf(I->getSourceLocation());
        OS << ",\"init\":";
        if (I->getInit()) dumpStmt(I->getInit()); else OS << "null";
        OS << "}";
      }
      OS << "]";
    }
    OS << ",\"body\":";
    dumpStmt(FD->getBody());
    OS << ",\"cfg\":";
    dumpCFG(FD);
    OS << "}";
  }

  void noteRecord(const CXXRecordDecl *RD) {
    if (!RD->isCompleteDefinition() || RD->isLambda()) return;
    if (RD->isDependentContext()) return;
    if (!inRoots(RD->getLocation())) return;
    RD = RD->getDefinition();
    if (!seenRec.insert(RD).second) return;
    llvm::raw_string_ostream o(records);
    if (!records.empty()) o << ",\n";
    o << "{\"name\":" << jstr(qname(RD)) << ",\"file\":" << jstr(fileOf(RD->getLocation())) << ",\"line\":" << lineOf(RD->getLocation());
    std::string ca = classTargs(RD);
    if (!ca.empty()) o << ",\"cargs\":" << jstr(ca);
    o << ",\"bases\":[";
    bool first = true;
    for (auto &B : RD->bases()) {
      if (!first) o << ",";
      first = false;
      o << jstr(typeStr(B.getType()));
    }
    o << "],\"fields\":[";
    first = true;
    for (const FieldDecl *F : RD->fields()) {
      if (!first) o << ",";
      first = false;
      o << "{\"name\":" << jstr(F->getNameAsString()) << ",\"q\":" << jstr(qname(F)) << ",\"t\":" << jstr(typeStr(F->getType()))
        << ",\"mutable\":" << (F->isMutable() ? 1 : 0) << ",\"l\":" << lineOf(F->getLocation()) << "}";
    }
    o << "],\"methods\":[";
    first = true;
    for (const CXXMethodDecl *M : RD->methods()) {
      if (M->isImplicit()) continue;
      if (!first) o << ",";
      first = false;
      const char *acc = "none";
      switch (M->getAccess()) { case AS_public: acc = "public"; break; case AS_protected: acc = "protected"; break; case AS_private: acc = "private"; break; default: break; }
      o << "{\"name\":" << jstr(qname(M)) << ",\"sig\":" << jstr(sigOf(M)) << ",\"const\":" << (M->isConst() ? 1 : 0)
        << ",\"virtual\":" << (M->isVirtual() ? 1 : 0) << ",\"access\":" << jstr(acc) << ",\"l\":" << lineOf(M->getLocation()) << "}";
    }
    o << "]}";
  }

  void noteEnum(const EnumDecl *ED) {
    if (!ED->isCompleteDefinition()) return;
    if (!inRoots(ED->getLocation())) return;
    if (!seenEnum.insert(ED->getDefinition()).second) return;
    llvm::raw_string_ostream o(enums);
    if (!enums.empty()) o << ",\n";
    o << "{\"name\":" << jstr(qname(ED)) << ",\"file\":" << jstr(fileOf(ED->getLocation())) << ",\"line\":" << lineOf(ED->getLocation()) << ",\"values\":[";
    bool first = true;
    for (const EnumConstantDecl *C : ED->enumerators()) {
      if (!first) o << ",";
      first = false;
      o << "{\"name\":" << jstr(C->getNameAsString()) << ",\"val\":" << jstr(llvm::toString(C->getInitVal(), 10)) << "}";
    }
    o << "]}";
  }
};

class Visitor : public RecursiveASTVisitor<Visitor> {
public:
  Extractor &X;
  explicit Visitor(Extractor &x) : X(x) {}
  bool shouldVisitTemplateInstantiations() const { return true; }
  bool shouldVisitImplicitCode() const { return false; }
  bool shouldVisitLambdaBody() const { return true; }
  bool VisitFunctionDecl(FunctionDecl *FD) {
    X.dumpFunction(FD);
    return true;
  }
  bool VisitLambdaExpr(LambdaExpr *LE) {
    if (LE->getCallOperator()) X.dumpFunction(LE->getCallOperator());
    return true;
  }
  bool VisitCXXRecordDecl(CXXRecordDecl *RD) {
    X.noteRecord(RD);
    return true;
  }
  bool VisitEnumDecl(EnumDecl *ED) {
    X.noteEnum(ED);
    return true;
  }
};

class Consumer : public ASTConsumer {
public:
  void HandleTranslationUnit(ASTContext &Ctx) override {
    if (Ctx.getDiagnostics().hasErrorOccurred()) {
      llvm::errs() << "tsgfacts: parse errors, no facts written\n";
      return;
    }
    std::error_code EC;
    llvm::raw_fd_ostream OS(gOut, EC);
    if (EC) { llvm::errs() << "tsgfacts: cannot open " << gOut << "\n"; return; }
    Extractor X(Ctx, OS);
    OS << "{\"functions\":[\n";
    Visitor V(X);
    V.TraverseDecl(Ctx.getTranslationUnitDecl());
    OS << "\n],\"records\":[\n" << X.records << "\n],\"enums\":[\n" << X.enums << "\n],\"ok\":1}\n";
  }
};

class Action : public ASTFrontendAction {
public:
  std::unique_ptr<ASTConsumer> CreateASTConsumer(CompilerInstance &, llvm::StringRef) override {
    return std::make_unique<Consumer>();
  }
};

} // namespace

int main(int argc, const char **argv) {
  std::vector<std::string> flags;
  std::string file;
  int i = 1;
  for (; i < argc; i++) {
    std::string a = argv[i];
    if (a == "--") { i++; break; }
    if (a.rfind("--out=", 0) == 0) gOut = a.substr(6);
    else if (a.rfind("--root=", 0) == 0) gRoots.push_back(a.substr(7));
    else { llvm::errs() << "unknown option " << a << "\n"; return 2; }
  }
  for (; i < argc; i++) flags.push_back(argv[i]);
  if (flags.empty() || gOut.empty() || gRoots.empty()) {
    llvm::errs() << "usage: tsgfacts --out=F --root=/repo/ -- <flags> file.cpp\n";
    return 2;
  }
  file = flags.back();
  flags.pop_back();
  clang::tooling::FixedCompilationDatabase DB(".", flags);
  clang::tooling::ClangTool Tool(DB, {file});
  int rc = Tool.run(clang::tooling::newFrontendActionFactory<Action>().get());
  return rc;
}
