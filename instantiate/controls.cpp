// Positive controls for rules whose expected number of instances on the library is zero.
// This unit is parsed together with the library units (it is never compiled into anything); every control below
// has to be reported by its rule on every run, otherwise the matcher is broken (analysis-broken, exit 2).
#include <fstream>
#include <string>
#include <stdexcept>
#include <vector>
#include <functional>

namespace VerifControls{

// C17-D10.reopen: a stream that outlives the attempt and is left open by the handler
inline int control_reopen(std::string const &first, std::string const &second){
    std::ifstream infile;
    auto attempt = [&](std::string const &name)->bool{
        infile.open(name, std::ios::binary);
        try{
            if (!infile.good()) throw std::runtime_error("missing");
            int x = 0;
            infile >> x;
            if (infile.fail()) throw std::runtime_error("corrupt");
            infile.close();
            return true;
        }catch(std::runtime_error &){
            return false; // the stream stays open
        }
    };
    return (attempt(first) or attempt(second)) ? 1 : 0;
}


// C19-D5.reentrant / C20-D8.reentrant: work storage with static (thread) duration in a routine that calls user code
inline double control_static_work(std::function<double(std::vector<double> const&)> const &callback, size_t n){
    static thread_local std::vector<double> work;
    work.assign(n, 1.0);
    double r = callback(work); // a nested call made by the callback overwrites work
    return r + work[0];
}


// C06-D15.accepts: a reader that rejects restored floating point data by comparing two of the values (the writer never promised that order)
inline void control_value_guard(std::vector<double> const &a, std::vector<double> const &b){
    for(size_t j=0; j<a.size(); j++)
        if (!(a[j] < b[j])) throw std::runtime_error("not an interval");
}

}

int verif_controls_anchor(){
    return VerifControls::control_reopen("a", "b")
         + static_cast<int>(VerifControls::control_static_work([](std::vector<double> const &w)->double{ return w[0]; }, 2))
         + (VerifControls::control_value_guard({0.0}, {1.0}), 0);
}
