#!/bin/bash
# (the file column may list several files separated by commas: the same expression is applied to each)
# selftest/run_neutral.sh [worktree] : applies every behaviour-preserving edit of selftest/neutral.tsv to a scratch worktree of /repo
# (default: creates /tmp/neutral_wt from HEAD and removes it afterwards) and runs the listed checks there; every check must exit 0.
cd /verif
WT=$1; own=0
if [ -z "$WT" ]; then WT=/tmp/neutral_wt; own=1; git -C /repo worktree remove --force $WT >/dev/null 2>&1; git -C /repo worktree add --detach $WT HEAD >/dev/null 2>&1 || exit 2; fi
fa=0; lost=0; ok=0
while IFS=$'\t' read -r props file expr what; do
  [[ "$props" =~ ^#.*$ || -z "$props" ]] && continue
  (cd $WT && git checkout -q -- . && for f in ${file//,/ }; do sed -i "$expr" "$f"; done)
  if [ -z "$(git -C $WT diff --stat)" ]; then echo "NO-CHANGE: $what [$expr]"; lost=$((lost+1)); continue; fi
  for p in $props; do
    out=$(TSG_REPO=$WT ./check $p 2>&1); rc=$?
    case $rc in
      0) ok=$((ok+1));;
      1) fa=$((fa+1)); echo "FALSE-ALARM: $p on '$what'"; echo "$out" | grep -m2 violated | cut -c1-260;;
      *) lost=$((lost+1)); echo "ANCHOR-LOST($rc): $p on '$what'"; echo "$out" | grep -m1 -E "BROKEN" | cut -c1-260;;
    esac
  done
done < selftest/neutral.tsv
git -C $WT checkout -q -- .
[ $own -eq 1 ] && git -C /repo worktree remove --force $WT >/dev/null 2>&1
echo "neutral edits: $ok silent, $fa false alarm(s), $lost anchor-lost / not applied"
[ $fa -eq 0 ]
