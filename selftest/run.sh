#!/bin/bash
# runs every mutant of selftest/mutants.tsv through tools/mut.sh; prints MISSED for a mutant the check does not report
cd /verif
ok=0; miss=0
while IFS=$'\t' read -r prop file expr rule; do
  [[ "$prop" =~ ^#.*$ || -z "$prop" ]] && continue
  out=$(tools/mut.sh "$prop" "$file" "$expr" 2>&1)
  if echo "$out" | grep -q "exit 1" && echo "$out" | grep -q "$rule"; then ok=$((ok+1)); else miss=$((miss+1)); echo "MISSED: $prop $file [$expr] expected $rule"; echo "$out" | head -3; fi
done < selftest/mutants.tsv
echo "selftest: $ok mutants detected, $miss missed"
[ $miss -eq 0 ]
